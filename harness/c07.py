"""C07 -- execution is deterministic and independent of declaration order.

(1) Coq theorems (props/C07_Props.v when present): permutation invariance of the model functions.
(2) metamorphic check on the real implementation:
    (a) every generated chart is rebuilt in several shuffled declaration orders (add_state / add_transition order
        of siblings and transitions) and once through YAML export/import (YAML order); all variants are run in
        lock-step on the same random input script and must produce identical macro steps (consumed event, transition
        records, exited/entered order, sent events), configurations, contexts, queues, memory, or the same error kind
        at the same step;
    (b) the same (chart, script) pairs are run in fresh processes under different PYTHONHASHSEED values and the
        complete traces must be identical to each other and to the in-process run;
(3) the reference runs are also evaluated against the Coq model (one-operation correspondence) so that the
    theorems speak about what was run; a model mismatch alone is not a C07 violation (it is reported by the
    property the differing component belongs to), it is recorded in the evidence.
"""
import json
import os
import pickle
import random
import subprocess
import sys
import tempfile
import time

import genchart
import ifam
import metam
import sx
from common import (COQ, VERIF, Verdict, log, proof_stage, repo_blob_ids, write_evidence, TRUSTED_BASE)

PROP = 'C07'
PROOF_FILES = [f for f in ['proofs/SortLib.v', 'proofs/FrameLib.v', 'proofs/C07Proofs.v'] if os.path.exists(os.path.join(COQ, f))]
SEEDS = ['0', '1', '424242']


def make_script(rng, n, names=None):
    return [metam.random_op(rng, fail_bits=True, names=names) for _ in range(n)]


HOLDER = {}


def _tick():
    HOLDER['s'].clock.time += 1


# ONE initial-context mapping reused for every interpreter of this process, as a client running the same statechart
# several times would do: a run must not depend on what earlier runs did with it
SHARED_CONTEXT = {'tick': _tick, 'k': 0}


def mk_scn(sc):
    scn = sx.Scenario(sc, n_rec=0, initial_context=SHARED_CONTEXT)
    HOLDER['s'] = scn
    return scn


def run_script(scn, script, collect_cases=None):
    """-> list of normalised outcomes (one per exec), stops after an error."""
    out = []
    for op in script:
        c = metam.apply_op(scn, op)
        if c is None:
            continue
        if collect_cases is not None:
            collect_cases.append(c)
        out.append(metam.norm_case(scn, c))
        if c['out'][0] == 'err':
            break
    return out


def variant_chart(cv, kind, vseed):
    import sismic.io
    rng = random.Random(vseed)
    if kind == 'same':
        return metam.rebuild(cv, None, shuffle=False)
    sc = metam.rebuild(cv, rng, shuffle=True)
    if kind == 'yaml':
        sc = sismic.io.import_from_yaml(sismic.io.export_to_yaml(sc))
    return sc


def worker(path_in, path_out):
    """Run in a fresh process (its own PYTHONHASHSEED): chart values + scripts -> repr of traces."""
    jobs = pickle.load(open(path_in, 'rb'))
    res = []
    for cv, kind, vseed, script in jobs:
        sc = variant_chart(cv, kind, vseed)
        scn = mk_scn(sc)
        res.append(repr(run_script(scn, script)))
    json.dump(res, open(path_out, 'w'))


def first_diff(a, b):
    for i, (x, y) in enumerate(zip(a, b)):
        if x != y:
            return i
    return min(len(a), len(b))


def main(tier, seed):
    t0 = time.time()
    v = Verdict(PROP)
    have_props = os.path.exists(os.path.join(COQ, 'props', '%s_Props.v' % PROP))
    info = proof_stage(PROP, PROOF_FILES, v) if have_props else dict(build_ok=True, ok=True, note='no property file yet')
    rng = random.Random(seed * 9176 + 7)
    n_charts = 400 if tier == 'quick' else 4000
    profile = genchart.Profile(p_hist_target=0.15, p_orth=0.4, p_history=0.3, p_contract=0.25, same_source_boost=0.4, p_prio=0.5,
                               n_trans=(4, 14), max_states=13, use_k=True,
                               alt=[(0.25, genchart.parallel_profile(p_entry_code=0.6, p_action=0.7, use_k=True)), (0.15, genchart.nested_parallel_chart)])
    n_viol = 0
    jobs = []
    refs = []
    stats = dict(charts=0, variants=0, execs=0, errors={}, multi_transition_steps=0, steps_with_orthogonal_exit=0,
                 yaml_variants=0, variant_pairs_compared=0)
    ref_cases, ref_charts = [], {}
    samples = []
    # the corpus first (hand-shaped charts with their scripted inputs, then a random continuation), then generated charts
    import corpus_interp
    items = []
    for entry in corpus_interp.entries():
        try:
            ch, scr = corpus_interp.build(entry)
        except Exception as e:  # noqa
            stats.setdefault('corpus_errors', []).append('%s: %r' % (entry[0], e))
            continue
        items.append((ch, list(scr) + make_script(rng, 10, sorted({t.event for t in ch._transitions if t.event}))))
    stats['corpus_charts'] = len(items)
    for k in range(n_charts + len(items)):
        if k < len(items):
            chart, script = items[k]
        else:
            chart = genchart.valid_chart(rng, profile)
            script = make_script(rng, rng.randint(8, 22), sorted({t.event for t in chart._transitions if t.event}))
        cv = sx.chart_value(chart)
        # reference = the chart as generated
        ref_scn = mk_scn(chart)
        cases = []
        ref = run_script(ref_scn, script, collect_cases=cases)
        key = 'c%d' % k
        ref_charts[key] = cv
        for c in cases:
            c['chart_key'] = key
            c['scenario'] = ref_scn
            c['prop_charts'] = {}
            ref_cases.append(c)
            if c['out'][0] == 'err':
                stats['errors'][c['out'][1][0]] = stats['errors'].get(c['out'][1][0], 0) + 1
            elif c['out'][1] is not None:
                nt = sum(1 for s in c['out'][1][1] if s['trans'] is not None)
                stats['multi_transition_steps'] += nt >= 2
                stats['steps_with_orthogonal_exit'] += any(len(s['exited']) >= 3 for s in c['out'][1][1])
        stats['charts'] += 1
        stats['execs'] += len(ref)
        variants = [('shuffle', rng.getrandbits(30)), ('shuffle', rng.getrandbits(30)), ('yaml', rng.getrandbits(30))]
        for kind, vseed in variants:
            try:
                sc2 = variant_chart(cv, kind, vseed)
            except Exception as e:  # noqa
                if kind == 'yaml':
                    continue       # not exportable (C11's business)
                raise
            stats['variants'] += 1
            stats['yaml_variants'] += kind == 'yaml'
            got = run_script(mk_scn(sc2), script)
            stats['variant_pairs_compared'] += 1
            if got != ref:
                i = first_diff(ref, got)
                import sismic.io
                n_viol += 1
                v.violation(dict(property=PROP,
                                 clause='two declaration orders of the same statechart produce different runs (C07_decl_order)',
                                 variant_kind=kind, chart_yaml_reference=sismic.io.export_to_yaml(chart),
                                 chart_yaml_variant=sismic.io.export_to_yaml(sc2), script=script, first_differing_exec=i,
                                 reference=ref[i] if i < len(ref) else None, variant=got[i] if i < len(got) else None,
                                 how_to_replay='./check C07 --replay <this file>'), tag='order%d' % k)
        if len(samples) < 2 and len(ref) >= 3:
            samples.append(dict(states=[n for n, _ in cv['states']], script=script[:8], first_outcomes=[repr(r[0])[:300] for r in ref[:2]]))
        jobs.append((cv, 'shuffle' if k % 2 else 'same', rng.getrandbits(30), script))
        refs.append((k, ref))
    # (b) hash seeds, fresh processes
    tmp = tempfile.mkdtemp(prefix='c07_')
    hs = {}
    try:
        pin = os.path.join(tmp, 'jobs.pkl')
        pickle.dump(jobs, open(pin, 'wb'))
        procs = []
        for s in SEEDS:
            env = dict(os.environ, PYTHONHASHSEED=s, PYTHONPATH=os.environ.get('VERIF_REPO', '/repo'))
            pout = os.path.join(tmp, 'out_%s.json' % s)
            procs.append((s, pout, subprocess.Popen(
                [sys.executable, '-c', 'import sys; sys.path.insert(0, %r); import c07; c07.worker(%r, %r)' % (
                    os.path.dirname(os.path.abspath(__file__)), pin, pout)], env=env,
                stdout=subprocess.PIPE, stderr=subprocess.PIPE, text=True)))
        for s, pout, p in procs:
            o, e = p.communicate(timeout=3000)
            if p.returncode != 0 or not os.path.exists(pout):
                n_viol += 1
                v.violation(dict(property=PROP, broken='hash-seed worker failed', seed=s, stderr=e[-2000:]), tag='worker%s' % s,
                            no_input=True)
                continue
            hs[s] = json.load(open(pout))
    finally:
        import shutil
        shutil.rmtree(tmp, ignore_errors=True)
    n_hash = 0
    for idx, (k, ref) in enumerate(refs):
        for s in hs:
            n_hash += 1
            if hs[s][idx] != repr(ref):
                n_viol += 1
                import sismic.io
                v.violation(dict(property=PROP,
                                 clause='the same statechart and inputs give another run under PYTHONHASHSEED=%s '
                                        '(C07_hashseed / C07_function)' % s,
                                 chart=jobs[idx][0], variant=jobs[idx][1:3], script=jobs[idx][3],
                                 reference_trace=repr(ref)[:4000], other_trace=hs[s][idx][:4000],
                                 how_to_replay='./check C07 --replay <this file>'), tag='hash%d_%s' % (k, s))
    # (3) model correspondence of the reference runs (information; not a C07 verdict by itself)
    sub = ref_cases[:1200] if tier == 'quick' else ref_cases[:12000]
    masks, fails = ifam.emit_and_check(PROP, ref_charts, sub)
    model_mismatch = {}
    for idx, m in masks.items():
        mask, fdk, mcode = ifam.decode(m)
        for nm in ifam.bits_names(mask):
            model_mismatch[nm] = model_mismatch.get(nm, 0) + 1
    import icheck
    n_viol += min(2, icheck.report_unattributed(PROP, v, masks, sub, ref_charts))
    # "a run is a function of the statechart's structure and the input history only": what a guard or a condition evaluates
    # to is the value of its text in what it can observe - not of what this or another interpreter evaluated earlier
    n_bad = 0
    for c in sub:
        bad = icheck.eval_results_ok(c, ('guard', 'pre', 'inv', 'post'))
        if bad:
            n_bad += 1
            if n_bad <= 2:
                rep = ifam.describe_case(c, ref_charts)
                rep.update(property=PROP, clause=bad + ' (C07: a run is a function of the structure and the input history only)')
                v.violation(rep, tag='evalres%d' % n_bad)
                n_viol += 1
    for fn, out in fails:
        n_viol += 1
        v.violation(dict(property=PROP, broken='correspondence lemma file did not evaluate', file=fn, log=out), tag='coq',
                    no_input=True)
    if not info.get('build_ok') or not info.get('ok') or info.get('forbidden_tokens'):
        if n_viol == 0:
            v.violation(dict(property=PROP, broken='proof obligations do not check', info=info), tag='proof', no_input=True)
            n_viol += 1
    fps = {repr((j[0]['states'], j[3])) for j in jobs}
    cov = dict(
        obligations=info.get('obligations', 0), discharged=info.get('discharged', 0),
        checker_cmd='cd /verif/coq && make && coqc props/C07_Props.v (Print Assumptions); lock-step runs of /repo in shuffled '
                    'declaration orders and under PYTHONHASHSEED in %s; coqc gen/C07/cases_*.v' % SEEDS,
        trusted_base=TRUSTED_BASE + ['Print Assumptions: ' + (
            'Closed under the global context x%d' % info.get('closed', 0) if not info.get('axioms') else '; '.join(info['axioms']))],
        theorems=info.get('theorems', []),
        evaluations=stats['variant_pairs_compared'] + n_hash, distinct_nontrivial=len(fps),
        rule='each generated well-formed chart is rebuilt in 2 shuffled add_state/add_transition orders and once through '
             'YAML export/import, all variants run in lock-step on one random script (queue with/without delay and '
             'parameters, clock moves, guard bits, contract bits, execute_once) and compared on normalised macro steps '
             '(transition RECORDS not indices), configuration, context, queues, memory, time, error kind; the same jobs run '
             'in fresh processes under %d hash seeds and are compared as whole traces. distinct = distinct (chart, script); '
             'a pair is non-trivial when the script executes at least one macro step.' % len(SEEDS),
        traces_validated_against_impl=len(sub), model_mismatch_components=model_mismatch,
        hash_seed_runs=n_hash, input_distribution=stats, samples=samples or [dict(note='no sample')],
        source_blobs=repo_blob_ids(['sismic/interpreter/default.py', 'sismic/model/statechart.py', 'sismic/io/datadict.py']),
        proof_info={k: info.get(k) for k in ('build_ok', 'ok', 'closed', 'axioms', 'forbidden_tokens', 'note', 'coqchk')})
    write_evidence(PROP, tier, seed, t0, cov,
                   ['DESIGN.md section 2 well-formedness of the generated charts',
                    'the metamorphic runs are a test of the implementation (they find failing inputs), not a proof; the '
                    'theorems are about the model'], n_viol)
    return v.finish()


def replay(path):
    r = json.load(open(path))
    print(json.dumps({k: r[k] for k in r if k not in ('chart', 'chart_yaml_reference', 'chart_yaml_variant')}, indent=1)[:3000])
    return 0
