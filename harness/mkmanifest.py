"""Regenerates /verif/MANIFEST.json from the table below (keeps it valid at all times)."""
import json

CLAIMED = {
    'C14': dict(
        category='proof',
        text='SimulatedClock modelled over exact rationals with explicit wall-clock reads; monotonicity for every '
             'operation sequence (induction with an invariant), exactness of assignments, standing still while '
             'stopped and speed x elapsed while started are Coq theorems; the model is tied to clock.py on every '
             'run by replaying generated operation scripts on the real class with a scripted wall clock and '
             'comparing every result with the model evaluated by vm_compute.',
        design_ref='DESIGN.md section 6 (C14)',
        note='Trusted: Coq kernel+VM; hand-written model validated differentially on generated scripts only; '
             'exact arithmetic (no IEEE rounding); hypotheses: non-decreasing wall clock, speeds >= 0.',
        technique='Coq proof (invariant induction over Q) + differential correspondence via vm_compute'),
}

CLAIMED['C04'] = dict(
    category='proof',
    text='The pair check of _sort_transitions is modelled literally (combinations order, strict-ancestor LCA, '
         'stays-below test); Coq theorems give the complete classification of a pair, NonDeterminismError / '
         'ConflictingTransitionsError / no error for every list of selected transitions, that the first offending '
         'pair decides, and that when either error is raised the interpreter state is the old one up to the sampled '
         'step time (nothing exited, entered, executed, consumed). Tied to default.py by one-operation '
         'correspondence cases evaluated by vm_compute from the implementation\'s own pre-state.',
    design_ref='DESIGN.md section 6 (C04)',
    note='Trusted: Coq kernel+VM; hand-written model validated differentially on generated cases only; which error '
         'wins when both kinds of offending pairs exist is not fixed by the property (the model fixes it as the code does).',
    technique='Coq proof (case analysis + frame lemmas) + step-local differential correspondence via vm_compute')

CLAIMED['C01'] = dict(
    category='proof',
    text='_select_transitions is modelled loop by loop (four nested sorted_groupby loops, ignored-ancestors set, early '
         'breaks, exposed event); the Coq theorem C01_selection proves that for EVERY configuration, pending event and '
         'guard valuation the selected list contains exactly the transitions that fire under the documented rule '
         '(eventless pre-empt, inner-first, highest priority class per source), C01_guard_view that eventless guards '
         'never see the event and event-triggered ones see exactly the pending event, C01_consumption which event the '
         'computed steps carry. Tied to default.py by one-operation correspondence cases (selection, consumed event, '
         'guard calls with the event they see) evaluated by vm_compute from the implementation\'s own pre-state.',
    design_ref='DESIGN.md section 6 (C01)',
    note='Trusted: Coq kernel+VM; hand-written model validated differentially on generated cases only; tree hypothesis '
         '(ancestors have smaller depth, decidable checker proved sound); guards are pure (WF8).',
    technique='Coq proof (loop invariants over sorted_groupby) + step-local differential correspondence via vm_compute')

CLAIMED['C05'] = dict(
    category='proof',
    text='queue / _queue_event / _select_event and the whole of execute_once are modelled; Coq theorems: insertion '
         'position (after every entry with due <= t, before every later one: FIFO), queue invariant preserved by every '
         'operation and every outcome, which event is considered (internal head if due, else external head; nothing '
         'overtaken), one execute_once removes at most one entry - the one the macro step reports - and inserts only the '
         'internal events it sent, conservation as a multiset equation for single steps and for arbitrary operation '
         'sequences, delays respected, a due event makes the step non-empty. Tied to default.py by one-operation '
         'correspondence cases (queue() and execute_once) evaluated by vm_compute; the queue invariant is also checked '
         'on every captured implementation state.',
    design_ref='DESIGN.md section 6 (C05)',
    note='Trusted: Coq kernel+VM; hand-written model validated differentially on generated cases only; bisect_right on '
         'a sorted list is modelled as "index after the last key <= x"; integer times and delays.',
    technique='Coq proof (frame lemmas, sortedness invariant, permutation) + step-local differential correspondence via vm_compute')

CLAIMED['C10'] = dict(
    category='proof',
    text='Meta-event emission is modelled inside the interpreter model (raise_meta at every emission point) and the '
         'listeners of listener.py concretely (recorders, bound callables/interpreters, property statecharts executing a '
         'nested interpreter at the monitored step time). Coq theorems: the listener call sequence of a returning '
         'execute_once is exactly spec_meta(returned macro step) (complete, once, ordered, with attributes), a prefix when '
         'it raises; delivery stops at the first raising listener; a property listener raises exactly when its '
         'interpreter is final; it runs at the monitored step time; listeners that do not raise do not change the run '
         '(simulation with the listener-free run). Tied to the code by one-operation correspondence cases with recorders '
         'and property statecharts that turn final at the k-th meta-event for every k; the spec_meta checker (proved '
         'equal to the theorem\'s specification) is evaluated on every implementation log.',
    design_ref='DESIGN.md section 6 (C10)',
    note='Trusted: Coq kernel+VM; hand-written model validated differentially on generated cases only; hypothesis names_ok '
         '(a state registered under a name has that name; decidable, proved necessary by a refutation); property '
         'interpreters have no listeners of their own; user notify names differ from built-in meta-event names.',
    technique='Coq proof (trace lemmas, simulation) + step-local differential correspondence via vm_compute')
CLAIMED['C13'] = dict(
    category='proof',
    text='Coq theorems over the interpreter model: in one execute_once, whatever its outcome, the interpreter time is the '
         'value sampled at the call, every executed/evaluated fragment sees it, step started and the macro step carry it, '
         'every listener call gets it, and no other operation changes it; entry/idle times after a step are exactly '
         '"latest macro step that entered the state" / "... or processed a transition from it", and guards/contracts see '
         'those as the bases of after()/idle(). Tied to the code by correspondence cases in which the clock also moves '
         'DURING a step (a context callable) and the bases of after/idle are observed by probing the very closures the '
         'evaluator exposes.',
    design_ref='DESIGN.md section 6 (C13)',
    note='Trusted: Coq kernel+VM; hand-written model validated differentially; integer clock values (IEEE rounding of '
         'float times not modelled: time - d >= entry vs time - entry >= d can differ by an ulp).',
    technique='Coq proof (frame/trace invariants) + step-local differential correspondence via vm_compute')
CLAIMED['C15'] = dict(
    category='proof',
    text='Coq theorems over the interpreter + listener model: a bound callable receives, as external events with the same '
         'name and parameters, exactly the internal events listed in the returned macro step, in order; a bound '
         'interpreter gets them inserted in its external queue at its own time + delay; targets are served in binding '
         'order; only event sent is forwarded (no notify, no consumed events); nothing reaches a detached listener; the '
         'sender keeps its own internal copy; a prefix is delivered when the call raises. Tied to the code by '
         'correspondence cases with random binding topologies and detach points; the delivery checker (proved equal to the '
         'theorem\'s specification) runs on every implementation log.',
    design_ref='DESIGN.md section 6 (C15)',
    note='Trusted: Coq kernel+VM; hand-written model validated differentially; bound interpreters are only queued into '
         'during the sender\'s step (their own execution is a separate operation).',
    technique='Coq proof (listener fold lemmas) + step-local differential correspondence via vm_compute')

CLAIMED['C03'] = dict(
    category='proof',
    text='Coq theorems over the interpreter model, for every chart, evaluator and listener: the code fragments executed by an '
         'execute_once that returns a macro step are, in order, exactly exit code of the exited states / action / entry code '
         'of the entered states of each returned micro step, the events they sent are exactly the sent lists, and the new '
         'configuration is the replay of the exited/entered lists (C03_trace_truth, C03_sent_truth, C03_config_truth, '
         'C03_macro_config); the order theorems (atomic blocks transition+stabilisation, transitions by decreasing source depth '
         'then name, exits innermost-first and siblings by name, entries outermost-first) are in C03Proofs when registered. '
         'Tied to default.py by one-operation correspondence cases: the complete list of micro steps (order of transitions, '
         'exited/entered order, sent events) and the evaluator call log are compared with the model run by vm_compute; charts '
         'are generated with sibling names in non-alphabetical declaration order; the replay checker runs on every '
         'implementation output.',
    design_ref='DESIGN.md section 6 (C03)',
    note='Trusted: Coq kernel+VM; hand-written model validated differentially on generated cases only; names_coherent (a state '
         'registered under a name has that name) for the statements phrased with MicroStep names.',
    technique='Coq proof (observation-trace lemmas) + step-local differential correspondence via vm_compute')
CLAIMED['C06'] = dict(
    category='proof',
    text='Coq theorems over the interpreter model: a micro step records, for every exited compound state, the children '
         '(shallow) / descendants (deep) active at the start of that micro step and changes no other memory entry '
         '(C06_record_step); a step restoring history state h enters exactly the remembered states by (depth, name), parents '
         'first, or the default memory (C06_restore, C06_restore_parents_first); over ANY run, what is entered is the active '
         'scope of the parent in the configuration just before the LAST micro step that exited the parent, whatever happened in '
         'between, and the default memory if it was never exited (C06_run, C06_run_last_exit, C06_run_fresh); stabilisation '
         'continues below a restored state (C06_continue); no history state stays active. Tied to default.py by one-operation '
         'correspondence cases (memory, entered/exited lists) and by the history replay checker hist_replay (proved sound: '
         'C06_replay_sound) evaluated on every implementation output.',
    design_ref='DESIGN.md section 6 (C06)',
    note='Trusted: Coq kernel+VM; hand-written model validated differentially on generated cases only; names_ok and tree_ok '
         '(part of DESIGN.md section 2) where stated.',
    technique='Coq proof (run induction with ghost history) + step-local differential correspondence via vm_compute')
CLAIMED['C08'] = dict(
    category='proof',
    text='Coq theorems over the interpreter model, for every chart, evaluator and listener: with checking on, the evaluator calls '
         'of execute_once are guard evaluations followed by EXACTLY the documented slots of the returned micro steps and the '
         'invariants of the resulting configuration, each once, in order, also for an empty step (C08_execute_once_points_doc, '
         'C08_execute_once_empty_config); when a Pre/Post/InvariantError is raised the newest observation is the evaluation of '
         'exactly the carried condition of the carried owner, it was false, everything before succeeded and nothing follows '
         '(C08_first_failure, C08_first_raise); __old__ is the context just before the state was entered / the transition action '
         'ran and only precondition evaluation writes the store (C08_old_*). Tied to python.py/default.py by one-operation '
         'correspondence cases in which every single condition occurrence can be made to fail (contract bits): call log with '
         'what each call sees (event, __old__, after/idle base, sent), error payload; slot and first-failure checkers run on '
         'every implementation output.',
    design_ref='DESIGN.md section 6 (C08)',
    note='Trusted: Coq kernel+VM; hand-written model validated differentially on generated cases only; conditions are pure (WF8); '
         'emit_clean (listeners raise no ContractError of their own) for the first-failure theorems.',
    technique='Coq proof (play relation over documented slots) + step-local differential correspondence via vm_compute')
CLAIMED['C09'] = dict(
    category='proof',
    text='Coq theorems over the interpreter model: with ignore_contract=True no condition is evaluated and no ContractError arises '
         '(C09_ignore_silent); if the checking run meets no false/erring condition, the ignoring run from a state equal up to the '
         'flag and the __old__ store returns the same results and ends in such a state again, with the same listener state and '
         'the same trace minus contract evaluations - for one step and for any operation sequence (C09_transparent, C09_run); '
         'the __old__ store is never read when ignoring. Tied to the code by one-operation correspondence cases under '
         'ignore_contract=True and by lock-step runs of the implementation under both settings (generated charts and the '
         'shipped elevator/microwave contract charts).',
    design_ref='DESIGN.md section 6 (C09)',
    note='Trusted: Coq kernel+VM; hand-written model validated differentially; conditions are pure (WF8): the evaluator type gives '
         'conditions no way to change the context.',
    technique='Coq proof (one-step simulation + induction) + differential correspondence and metamorphic lock-step runs')

NOT_YET = {}

ALL = ['C%02d' % i for i in range(1, 21)]


def main():
    checks = []
    for pid in ALL:
        if pid in CLAIMED:
            c = CLAIMED[pid]
            checks.append(dict(
                property_id=pid,
                quick_cmd='./check %s --tier quick' % pid,
                thorough_cmd='./check %s --tier thorough' % pid,
                evidence_file='/verif/evidence/%s.json' % pid,
                replay_cmd_template='./check %s --replay {path}' % pid,
                engine='coq-model+correspondence',
                level_claimed=dict(category=c['category'], text=c['text'], design_ref=c['design_ref']),
                level_note=c['note'],
                technique=c['technique']))
    na = [dict(property_id=pid, reason=NOT_YET.get(pid, 'check not built yet (work in progress this round); not claimed'))
          for pid in ALL if pid not in CLAIMED]
    m = dict(
        version=1,
        setup_cmd='cd /verif/coq && coq_makefile -f _CoqProject -o Makefile && timeout 3000 make -j16',
        hooks=dict(guard='ALEXANDREDECAN_SISMIC_VERIF', enable='no hooks in /repo: the harness subclasses/monkey-patches inside its own process',
                   baseline_off_cmd='cd /repo && /venv/bin/python -m pytest -ra -q -p no:cacheprovider --timeout=900 --continue-on-collection-errors',
                   source_commits=[], add_only=True),
        engines=[dict(name='coq-model+correspondence', path='/verif/coq + /verif/harness',
                      serves_properties=sorted(CLAIMED),
                      kind_free_text='hand-written Gallina model with Coq theorems; differential correspondence against /repo evaluated by vm_compute')],
        checks=checks,
        notes='See DESIGN.md. Known findings: /verif/known_findings.json.',
        not_applicable=na)
    json.dump(m, open('/verif/MANIFEST.json', 'w'), indent=1)


if __name__ == '__main__':
    main()
