"""Regenerates /verif/MANIFEST.json from the table below (keeps it valid at all times)."""
import json

CLAIMED = {
    'C14': dict(
        category='proof',
        text='SimulatedClock modelled over exact rationals with explicit wall-clock reads; monotonicity for every '
             'operation sequence (induction with an invariant), exactness of assignments, standing still while '
             'stopped and speed x elapsed while started are Coq theorems; the model is tied to clock.py on every '
             'run by replaying generated operation scripts on the real class with a scripted wall clock and '
             'comparing every result with the model evaluated by vm_compute.',
        design_ref='DESIGN.md section 6 (C14)',
        note='Trusted: Coq kernel+VM; hand-written model validated differentially on generated scripts only; '
             'exact arithmetic (no IEEE rounding); hypotheses: non-decreasing wall clock, speeds >= 0.',
        technique='Coq proof (invariant induction over Q) + differential correspondence via vm_compute'),
}

CLAIMED['C04'] = dict(
    category='proof',
    text='The pair check of _sort_transitions is modelled literally (combinations order, strict-ancestor LCA, '
         'stays-below test); Coq theorems give the complete classification of a pair, NonDeterminismError / '
         'ConflictingTransitionsError / no error for every list of selected transitions, that the first offending '
         'pair decides, and that when either error is raised the interpreter state is the old one up to the sampled '
         'step time (nothing exited, entered, executed, consumed). Tied to default.py by one-operation '
         'correspondence cases evaluated by vm_compute from the implementation\'s own pre-state.',
    design_ref='DESIGN.md section 6 (C04)',
    note='Trusted: Coq kernel+VM; hand-written model validated differentially on generated cases only; which error '
         'wins when both kinds of offending pairs exist is not fixed by the property (the model fixes it as the code does).',
    technique='Coq proof (case analysis + frame lemmas) + step-local differential correspondence via vm_compute')

CLAIMED['C01'] = dict(
    category='proof',
    text='_select_transitions is modelled loop by loop (four nested sorted_groupby loops, ignored-ancestors set, early '
         'breaks, exposed event); the Coq theorem C01_selection proves that for EVERY configuration, pending event and '
         'guard valuation the selected list contains exactly the transitions that fire under the documented rule '
         '(eventless pre-empt, inner-first, highest priority class per source), C01_guard_view that eventless guards '
         'never see the event and event-triggered ones see exactly the pending event, C01_consumption which event the '
         'computed steps carry. Tied to default.py by one-operation correspondence cases (selection, consumed event, '
         'guard calls with the event they see) evaluated by vm_compute from the implementation\'s own pre-state.',
    design_ref='DESIGN.md section 6 (C01)',
    note='Trusted: Coq kernel+VM; hand-written model validated differentially on generated cases only; tree hypothesis '
         '(ancestors have smaller depth, decidable checker proved sound); guards are pure (WF8).',
    technique='Coq proof (loop invariants over sorted_groupby) + step-local differential correspondence via vm_compute')

CLAIMED['C05'] = dict(
    category='proof',
    text='queue / _queue_event / _select_event and the whole of execute_once are modelled; Coq theorems: insertion '
         'position (after every entry with due <= t, before every later one: FIFO), queue invariant preserved by every '
         'operation and every outcome, which event is considered (internal head if due, else external head; nothing '
         'overtaken), one execute_once removes at most one entry - the one the macro step reports - and inserts only the '
         'internal events it sent, conservation as a multiset equation for single steps and for arbitrary operation '
         'sequences, delays respected, a due event makes the step non-empty. Tied to default.py by one-operation '
         'correspondence cases (queue() and execute_once) evaluated by vm_compute; the queue invariant is also checked '
         'on every captured implementation state.',
    design_ref='DESIGN.md section 6 (C05)',
    note='Trusted: Coq kernel+VM; hand-written model validated differentially on generated cases only; bisect_right on '
         'a sorted list is modelled as "index after the last key <= x"; integer times and delays.',
    technique='Coq proof (frame lemmas, sortedness invariant, permutation) + step-local differential correspondence via vm_compute')

CLAIMED['C10'] = dict(
    category='proof',
    text='Meta-event emission is modelled inside the interpreter model (raise_meta at every emission point) and the '
         'listeners of listener.py concretely (recorders, bound callables/interpreters, property statecharts executing a '
         'nested interpreter at the monitored step time). Coq theorems: the listener call sequence of a returning '
         'execute_once is exactly spec_meta(returned macro step) (complete, once, ordered, with attributes), a prefix when '
         'it raises; delivery stops at the first raising listener; a property listener raises exactly when its '
         'interpreter is final; it runs at the monitored step time; listeners that do not raise do not change the run '
         '(simulation with the listener-free run). Tied to the code by one-operation correspondence cases with recorders '
         'and property statecharts that turn final at the k-th meta-event for every k; the spec_meta checker (proved '
         'equal to the theorem\'s specification) is evaluated on every implementation log.',
    design_ref='DESIGN.md section 6 (C10)',
    note='Trusted: Coq kernel+VM; hand-written model validated differentially on generated cases only; hypothesis names_ok '
         '(a state registered under a name has that name; decidable, proved necessary by a refutation); property '
         'interpreters have no listeners of their own; user notify names differ from built-in meta-event names.',
    technique='Coq proof (trace lemmas, simulation) + step-local differential correspondence via vm_compute')
CLAIMED['C13'] = dict(
    category='proof',
    text='Coq theorems over the interpreter model: in one execute_once, whatever its outcome, the interpreter time is the '
         'value sampled at the call, every executed/evaluated fragment sees it, step started and the macro step carry it, '
         'every listener call gets it, and no other operation changes it; entry/idle times after a step are exactly '
         '"latest macro step that entered the state" / "... or processed a transition from it", and guards/contracts see '
         'those as the bases of after()/idle(). Tied to the code by correspondence cases in which the clock also moves '
         'DURING a step (a context callable) and the bases of after/idle are observed by probing the very closures the '
         'evaluator exposes.',
    design_ref='DESIGN.md section 6 (C13)',
    note='Trusted: Coq kernel+VM; hand-written model validated differentially; integer clock values (IEEE rounding of '
         'float times not modelled: time - d >= entry vs time - entry >= d can differ by an ulp).',
    technique='Coq proof (frame/trace invariants) + step-local differential correspondence via vm_compute')
CLAIMED['C15'] = dict(
    category='proof',
    text='Coq theorems over the interpreter + listener model: a bound callable receives, as external events with the same '
         'name and parameters, exactly the internal events listed in the returned macro step, in order; a bound '
         'interpreter gets them inserted in its external queue at its own time + delay; targets are served in binding '
         'order; only event sent is forwarded (no notify, no consumed events); nothing reaches a detached listener; the '
         'sender keeps its own internal copy; a prefix is delivered when the call raises. Tied to the code by '
         'correspondence cases with random binding topologies and detach points; the delivery checker (proved equal to the '
         'theorem\'s specification) runs on every implementation log.',
    design_ref='DESIGN.md section 6 (C15)',
    note='Trusted: Coq kernel+VM; hand-written model validated differentially; bound interpreters are only queued into '
         'during the sender\'s step (their own execution is a separate operation).',
    technique='Coq proof (listener fold lemmas) + step-local differential correspondence via vm_compute')

CLAIMED['C03'] = dict(
    category='proof',
    text='Coq theorems over the interpreter model, for every chart, evaluator and listener: the code fragments executed by an '
         'execute_once that returns a macro step are, in order, exactly exit code of the exited states / action / entry code '
         'of the entered states of each returned micro step, the events they sent are exactly the sent lists, and the new '
         'configuration is the replay of the exited/entered lists (C03_trace_truth, C03_sent_truth, C03_config_truth, '
         'C03_macro_config); the order theorems (atomic blocks transition+stabilisation, transitions by decreasing source depth '
         'then name, exits innermost-first and siblings by name, entries outermost-first) are in C03Proofs when registered. '
         'Tied to default.py by one-operation correspondence cases: the complete list of micro steps (order of transitions, '
         'exited/entered order, sent events) and the evaluator call log are compared with the model run by vm_compute; charts '
         'are generated with sibling names in non-alphabetical declaration order; the replay checker runs on every '
         'implementation output.',
    design_ref='DESIGN.md section 6 (C03)',
    note='Trusted: Coq kernel+VM; hand-written model validated differentially on generated cases only; names_coherent (a state '
         'registered under a name has that name) for the statements phrased with MicroStep names.',
    technique='Coq proof (observation-trace lemmas) + step-local differential correspondence via vm_compute')
CLAIMED['C06'] = dict(
    category='proof',
    text='Coq theorems over the interpreter model: a micro step records, for every exited compound state, the children '
         '(shallow) / descendants (deep) active at the start of that micro step and changes no other memory entry '
         '(C06_record_step); a step restoring history state h enters exactly the remembered states by (depth, name), parents '
         'first, or the default memory (C06_restore, C06_restore_parents_first); over ANY run, what is entered is the active '
         'scope of the parent in the configuration just before the LAST micro step that exited the parent, whatever happened in '
         'between, and the default memory if it was never exited (C06_run, C06_run_last_exit, C06_run_fresh); stabilisation '
         'continues below a restored state (C06_continue); no history state stays active. Tied to default.py by one-operation '
         'correspondence cases (memory, entered/exited lists) and by the history replay checker hist_replay (proved sound: '
         'C06_replay_sound) evaluated on every implementation output.',
    design_ref='DESIGN.md section 6 (C06)',
    note='Trusted: Coq kernel+VM; hand-written model validated differentially on generated cases only; names_ok and tree_ok '
         '(part of DESIGN.md section 2) where stated.',
    technique='Coq proof (run induction with ghost history) + step-local differential correspondence via vm_compute')
CLAIMED['C08'] = dict(
    category='proof',
    text='Coq theorems over the interpreter model, for every chart, evaluator and listener: with checking on, the evaluator calls '
         'of execute_once are guard evaluations followed by EXACTLY the documented slots of the returned micro steps and the '
         'invariants of the resulting configuration, each once, in order, also for an empty step (C08_execute_once_points_doc, '
         'C08_execute_once_empty_config); when a Pre/Post/InvariantError is raised the newest observation is the evaluation of '
         'exactly the carried condition of the carried owner, it was false, everything before succeeded and nothing follows '
         '(C08_first_failure, C08_first_raise); __old__ is the context just before the state was entered / the transition action '
         'ran and only precondition evaluation writes the store (C08_old_*). Tied to python.py/default.py by one-operation '
         'correspondence cases in which every single condition occurrence can be made to fail (contract bits): call log with '
         'what each call sees (event, __old__, after/idle base, sent), error payload; slot and first-failure checkers run on '
         'every implementation output.',
    design_ref='DESIGN.md section 6 (C08)',
    note='Trusted: Coq kernel+VM; hand-written model validated differentially on generated cases only; conditions are pure (WF8); '
         'emit_clean (listeners raise no ContractError of their own) for the first-failure theorems.',
    technique='Coq proof (play relation over documented slots) + step-local differential correspondence via vm_compute')
CLAIMED['C09'] = dict(
    category='proof',
    text='Coq theorems over the interpreter model: with ignore_contract=True no condition is evaluated and no ContractError arises '
         '(C09_ignore_silent); if the checking run meets no false/erring condition, the ignoring run from a state equal up to the '
         'flag and the __old__ store returns the same results and ends in such a state again, with the same listener state and '
         'the same trace minus contract evaluations - for one step and for any operation sequence (C09_transparent, C09_run); '
         'the __old__ store is never read when ignoring. Tied to the code by one-operation correspondence cases under '
         'ignore_contract=True and by lock-step runs of the implementation under both settings (generated charts and the '
         'shipped elevator/microwave contract charts).',
    design_ref='DESIGN.md section 6 (C09)',
    note='Trusted: Coq kernel+VM; hand-written model validated differentially; conditions are pure (WF8): the evaluator type gives '
         'conditions no way to change the context.',
    technique='Coq proof (one-step simulation + induction) + differential correspondence and metamorphic lock-step runs')

CLAIMED['C02'] = dict(
    category='proof',
    text='Coq theorems over the interpreter model: for every statechart passing the decidable well-formedness check wf_chart_b (proved to '
         'imply all the section-2 hypotheses), every evaluator and listeners and every sequence of queue/execute_once operations from the '
         'initial state, after each normally returning call the configuration is empty or legal (root, parent-closed, exactly one active '
         'child per compound, all children of an orthogonal state, no history state) and stable (C02_run_checked; one-step form '
         'C02_step_checked from ANY state satisfying the invariant); final is absorbing; stabilisation terminates (fuel irrelevant beyond '
         '2|S|+2). The micro steps computed in advance for simultaneous transitions are shown to stay accurate because the transitions '
         'that pass the conflict check sit in distinct regions. Tied to default.py by one-operation correspondence cases (configuration, '
         'initialised flag) and by the legality checker legal_b (proved to mean legal) evaluated on every configuration the real '
         'interpreter returns; charts include transitions into states nested in orthogonal regions, history targets, nested orthogonal '
         'states and several simultaneous transitions.',
    design_ref='DESIGN.md section 6 (C02)',
    note='Trusted: Coq kernel+VM; hand-written model validated differentially on generated cases only; hypotheses = DESIGN.md section 2 '
         'as the decidable wf_chart_b (WF7b is not needed).',
    technique='Coq proof (invariant induction over runs, region-locality of micro steps) + step-local differential correspondence via vm_compute')
CLAIMED['C07'] = dict(
    category='proof',
    text='Coq theorems over the interpreter model: (hash seed) execute_once and every operation sequence give the same results, trace and '
         'state whatever order the configuration set and the remembered lists are iterated in - no hypothesis on the chart '
         '(C07_hashseed_ops); (declaration order) for charts related by any permutation of the state dictionaries, children lists and '
         'transition list, every input history yields macro steps equal up to the renumbering of transitions - same consumed events, '
         'transition records, exit/entry order, sent events, contexts - or errors of the same kind at the same step (C07_decl_order_ops, '
         'C07_decl_order_perm); the conflict check returns the same error in both orders (C07_error_kind). Tied to the code by a '
         'metamorphic check of the real implementation: each generated chart is rebuilt in shuffled add_state/add_transition orders and '
         'through YAML, run in lock-step on the same script, and the same jobs are run in fresh processes under three PYTHONHASHSEED '
         'values; the reference runs are also evaluated against the model.',
    design_ref='DESIGN.md section 6 (C07)',
    note='Trusted: Coq kernel+VM; hand-written model validated differentially; hypotheses: unique names / unique root / registered children '
         '(decl_wf), descendants_for without duplicates (desc_ok, decidable), evaluator blind to transition indices. The lock-step runs '
         'are tests (they find failing inputs), the theorems are about the model.',
    technique='Coq proof (permutation invariance of every model function) + metamorphic differential runs (declaration orders, hash seeds)')
CLAIMED['C11'] = dict(
    category='proof',
    text='Coq theorem over the model of export_to_dict / schema / import_from_dict / validate: for every valid statechart the import of its '
         'export succeeds and is a lossless image (name, description, preamble, every state with kind, parent, code, initial/memory, '
         'contracts; every transition with all fields, order per source kept; code modulo surrounding whitespace) - C11_dict_roundtrip, '
         'C11_dict_roundtrip_eqv. The YAML text layer (ruamel) is not modelled: the correspondence run checks load(dump(d)) = d on every '
         'exported dictionary, compares import_from_yaml(export_to_yaml(sc)) with the model and with the lossless-image checker, applies the '
         'real == to every state and transition, and runs original and re-import in lock-step; charts carry unicode, YAML-significant and '
         'multi-line names and code; failing exports/imports are interleaved in the same process.',
    design_ref='DESIGN.md section 6 (C11)',
    note='Trusted: Coq kernel+VM; hand-written model validated differentially; ruamel.yaml and schema are third-party (exercised, not '
         'modelled); the behavioural clause is a corollary of C07 (declaration order) checked by lock-step runs; one known finding '
         '(U+0085 folded by ruamel) is listed in known_findings.json.',
    technique='Coq proof (export/import inverse by tree induction) + differential correspondence and lock-step runs')
CLAIMED['C12'] = dict(
    category='proof',
    text='Coq theorems over the model of the import pipeline on ARBITRARY YAML data trees: every returned statechart is structurally sound '
         '(C12_sound, import_sound_one_tree); for each listed fault class a document containing the fault at any position is rejected '
         '(22 C12_reject_* theorems: unknown keys at the four levels, unknown type, bad priority, missing names/root, both states and '
         'parallel states, duplicate names, transitions on final/history states, unknown targets, history root / history under a '
         'non-compound parent, initial not a child, memory not a sibling); the pipeline never depends on fuel and never ends in another '
         'error kind (C12_error_type). Tied to yaml.py/datadict.py by fault injection: documents exported from generated charts with one '
         'or two faults injected at random positions (faulty transitions carrying arbitrary legal priorities/guards/actions), benign '
         'variations and unmodified documents; outcome class compared with the model, soundness checker evaluated on everything the '
         'real importer returns.',
    design_ref='DESIGN.md section 6 (C12)',
    note='Trusted: Coq kernel+VM; hand-written model validated differentially; import-level rejection theorems locate the fault in the '
         'schema-validated tree; YAML syntax errors and duplicate mapping keys are raised by ruamel and are outside the listed faults.',
    technique='Coq proof (import invariants, case analysis of the schema model) + fault-injection differential correspondence')
CLAIMED['C16'] = dict(
    category='proof',
    text='Coq theorems over the model of the seven editing methods: every successful call on a sound statechart leaves it sound '
         '(C16_preserve), for any sequence (C16_seq); a call that raises StatechartError/ValueError leaves the statechart exactly as it was '
         '(C16_atomic), failed calls are no-ops (C16_seq_skip); the exact effect of each operation (C16_effect_*: remove_state removes '
         'exactly the subtree, every transition touching it, resets exactly the dangling initial/memory; move_state; rename_state = image '
         'under the renaming; ...). Tied to statechart.py by one-call correspondence cases (valid and invalid arguments): the complete '
         'statechart including dictionary orders is compared after each call, soundness and atomicity checkers run on the implementation\'s '
         'result, and the traversal queries depth_for/ancestors_for/descendants_for answered after the call (having also been asked before '
         'it) are compared with those of the resulting statechart.',
    design_ref='DESIGN.md section 6 (C16)',
    note='Trusted: Coq kernel+VM; hand-written model validated differentially; transitions are referred to by index; no state named ""; '
         'add_state side condition (no initial, memory already valid) proved necessary.',
    technique='Coq proof (dictionary/tree invariants, exact post-state characterisation) + one-call differential correspondence')
CLAIMED['C17'] = dict(
    category='proof',
    text='Coq theorems: (structure, EditProofs) rename_state yields the image of the statechart under the renaming, every transition keeps '
         'its shape - internal transitions stay internal (C17_structure, C17_internal_stay_internal); (behaviour) for every injective '
         'renaming that preserves the lexicographic order of the chart\'s names, every function of the interpreter model commutes with it, '
         'so every input history of the renamed chart produces the image of the original run (C17_equivariance_run; locality and '
         'necessity of the order hypothesis also proved). Tied to the code by lock-step runs of the real implementation: original vs '
         'chart renamed through rename_state (random order-preserving renamings of random subsets, charts with internal transitions and '
         'entry/exit code), structural comparison with the image, and guest vs host after copy_from_statechart. (copy, CopyProofs over '
         'theories/Copy.v, the model of copy_from_statechart checked against the implementation on every plug attempt, accepted or '
         'refused) the host gains exactly the image of the source sub-statechart under the renaming, each transition touching it once, '
         'nothing else changes (C17_copy_structure), the host stays sound under two side conditions proved necessary (C17_copy_sound, '
         'two refutations), a refused copy changes nothing when refused at the outset (copy_refused_unchanged). (embedding, WrapProofs) a '
         'statechart placed under a new compound root - the host shape the check uses - produces exactly the runs of the statechart '
         'alone: every function of the interpreter model commutes with the embedding (C17_wrap_step, C17_wrap_queue, C17_wrap_run, '
         'C17_wrap_init), under a decidable hypothesis evaluated on every plugged guest (wrap_okb) whose two essential clauses are '
         'proved necessary (the root has no final child; the root is active when a step starts). (composition, C17ComposeProofs) for the '
         'host the check uses, what copy_from_statechart builds IS the wrapped renamed guest up to the order of dictionary entries and '
         'transitions (copy_into_plug_is_wrap; equality of the transition lists refuted), and its run is the image of the run of the '
         'guest alone with the new root entered first (C17_wrap_rename_run: exact; C17_copy_run: up to the renaming of transition '
         'indices and the order-insensitive state relation of C07, until the first exception).',
    design_ref='DESIGN.md section 6 (C17)',
    note='Trusted: Coq kernel+VM; hand-written model validated differentially; the evaluator must not depend on state names (code is not '
         'rewritten by rename_state); the copied sub-chart is proved to be the renamed image of the source (structure) and a chart under a '
         'new root to behave as on its own (embedding), and the three are composed for the host shape of the check (hroot > plug); hosts '
         'with other active regions beside the plug, and runs after a first exception, are covered by lock-step runs only.',
    technique='Coq proof (equivariance of every model function) + metamorphic differential runs (rename_state, copy_from_statechart)')

CLAIMED['C18'] = dict(
    category='proof',
    text='Coq theorems over theories/Snapshot.v (an interpreter as object identities + the evaluator store keyed by id(obj) + plain data): '
         're-keying the store for the copied objects, as PythonEvaluator.__setstate__ does, leaves the owner-keyed view used by the '
         'interpreter model unchanged, so a pickled/deep-copied interpreter denotes the SAME model interpreter and every continuation '
         'gives the same results, state and trace (C18_snapshot_model, C18_continue); lookup by identity = lookup by owner (old_for_abs); '
         'without the re-keying the copy loses __old__ and a concrete run diverges (C18_continue_refuted_without_rekey: the defect '
         'switch). What pickle/deepcopy really keep is runtime behaviour, so the main tie is the correspondence run: at EVERY '
         'macro-step boundary of generated runs (contracts reading __old__, a nested mutable context value, history, delayed events, '
         'stopped and running clocks) the real interpreter is pickled and deep-copied; the copies\' states (store translated through the '
         'copy\'s own objects) must equal the original\'s, the copies must continue exactly like the run without snapshots - after the '
         'original has run on, so shared mutable state shows - and their steps are evaluated against the model.',
    design_ref='DESIGN.md section 6 (C18)',
    note='Trusted: Coq kernel+VM; the description of pickle/deepcopy in Snapshot.v (validated differentially); contexts hold picklable '
         'values; no listeners attached (lambdas cannot be pickled). Partial by nature: the theorem is about the description, the '
         'runtime behaviour is exercised, not proved.',
    technique='Coq proof (abstraction of the identity-keyed store) + differential snapshot/continuation runs at every macro-step boundary')
CLAIMED['C20'] = dict(
    category='proof',
    text='Coq theorems over a two-thread labelled transition system (theories/Runner.v: the control-flow graph of AsyncRunner._run/execute '
         'with one atomic action per access to shared state, execute_once as sample-time / peek / pop, client calls start, queue = '
         'bisect THEN insert, pause, unpause, stop = set, set, join), for EVERY schedule and client script: reports = executed steps in '
         'order, each once, at most one per cycle unless execute_all (C20_report); before_run/after_run once, first and last (C20_hooks); '
         'at most one cycle begins after pause() returned (C20_pause); after stop the runner ends within a stated bound of its own '
         'actions, stop() returns under every fair schedule and nothing runs afterwards (C20_stop*, C20_stop_returns, C20_stop_quiet); '
         'the loop exits and sets _stop when final (C20_final*); zero-delay events are consumed at most once, FIFO, none skipped '
         '(C20_events); for delayed events the property is REFUTED on the code as it is (C20_events_refuted: stale bisect index), a '
         'known finding. Tied to runner.py/default.py by replaying schedules on REAL threads gated at the model\'s action boundaries '
         '(hook overrides, Event/Thread subclasses, a settrace line gate on the insert of _queue_event located from the source text, '
         'fail-soft fallback), comparing trace and final state with the model evaluated by vm_compute and evaluating the property '
         'checker on the implementation\'s history.',
    design_ref='DESIGN.md section 6 (C20)',
    note='Partial by nature: the atomicity grain (one action per Python-level access; list.insert/pop and Event methods atomic) is an '
         'assumption about CPython, not a theorem; real preemption, time.sleep, __del__ and more than one client are not modelled; the '
         'interpreter is abstracted to its external queue, time, initialised and final. Known finding C20-stale-bisect-index is '
         'reported as KNOWN-FINDING only when the implementation agrees with the model and the atomic-insert switch removes the failure.',
    technique='Coq proof (program-counter invariants, induction over schedules) + gated replay of schedules on real threads')

CLAIMED['C19'] = dict(
    category='proof',
    text='Coq theorems over theories/Bdd.v (the hooks of environment.py as a state machine, the step functions of steps.py on top of the '
         'sismic.testing predicates, behave\'s skip-after-first-failure and first-registered-pattern-wins, a matcher for parse-style '
         'patterns), for an arbitrary abstract interpreter: a then step is reported passed iff the asserted fact holds of the block of '
         'macro steps monitored since the then step preceding the most recent when step and of the interpreter\'s current state '
         '(C19_verdict, C19_block, fact_b_sound), everything after the first failure is skipped (C19_skip), every given/when step has '
         'exactly its documented effect followed by execute() (C19_given_when), every sismic.testing predicate is equivalent to its '
         'reading over micro steps (C19_testing), and every documented spelling dispatches to the intended step function with the intended '
         'arguments over the pattern list RE-EXTRACTED from steps.py on every run (C19_dispatch, gen_patterns_ok, gen_dispatch_ok; the '
         'quotes of expression "..." holds never become part of the expression). Tied to the code end to end: generated feature files '
         '(true and false assertions alike, one assertion under test per scenario, repeat/reproduce/tables/parameters) are run through the '
         'real execute_bdd and the sismic-bdd CLI; per-step statuses are compared with an independent oracle interpreter and with the '
         'model; the testing predicates and behave\'s own matcher registry are compared directly.',
    design_ref='DESIGN.md section 6 (C19)',
    note='Trusted: Coq kernel+VM; hand-written model validated differentially; behave (Gherkin parsing, hook invocation, nested '
         'execute_steps, JSON formatter) and parse are third-party, exercised end to end and not modelled beyond the four behaviours named '
         'above; numeric fields are proved complete for decimal digit strings only; Python eval of step arguments is represented by a '
         'literal reader. The AST extractor is fail-soft (falls back to the documented pattern list and says so).',
    technique='Coq proof (scenario induction over the hook state machine, matcher completeness) + end-to-end differential runs through behave')

NOT_YET = {}

ALL = ['C%02d' % i for i in range(1, 21)]


def main():
    checks = []
    for pid in ALL:
        if pid in CLAIMED:
            c = CLAIMED[pid]
            checks.append(dict(
                property_id=pid,
                quick_cmd='./check %s --tier quick' % pid,
                thorough_cmd='./check %s --tier thorough' % pid,
                evidence_file='/verif/evidence/%s.json' % pid,
                replay_cmd_template='./check %s --replay {path}' % pid,
                engine='coq-model+correspondence',
                level_claimed=dict(category=c['category'], text=c['text'], design_ref=c['design_ref']),
                level_note=c['note'],
                technique=c['technique']))
    na = [dict(property_id=pid, reason=NOT_YET.get(pid, 'check not built yet (work in progress this round); not claimed'))
          for pid in ALL if pid not in CLAIMED]
    m = dict(
        version=1,
        setup_cmd='cd /verif/coq && coq_makefile -f _CoqProject -o Makefile && timeout 3000 make -j16',
        hooks=dict(guard='ALEXANDREDECAN_SISMIC_VERIF', enable='no hooks in /repo: the harness subclasses/monkey-patches inside its own process',
                   baseline_off_cmd='cd /repo && /venv/bin/python -m pytest -ra -q -p no:cacheprovider --timeout=900 --continue-on-collection-errors',
                   source_commits=[], add_only=True),
        engines=[dict(name='coq-model+correspondence', path='/verif/coq + /verif/harness',
                      serves_properties=sorted(CLAIMED),
                      kind_free_text='hand-written Gallina model with Coq theorems; differential correspondence against /repo evaluated by vm_compute')],
        checks=checks,
        notes='See DESIGN.md. Known findings: /verif/known_findings.json.',
        not_applicable=na)
    json.dump(m, open('/verif/MANIFEST.json', 'w'), indent=1)


if __name__ == '__main__':
    main()
